"""C18 - images: BMP layout, export dispatch, inline image scanning."""
import ast
import z3
from pyvc.contracts import contract, fragment, lemma, bounded, exhaustive, scenario, stub, REGISTRY
from pyvc.logic import And, Or, Not, Implies, Iff, eq, le, lt, If, ne, any_z3, mod, floordiv, ForAllInt
from pyvc import sorts as T
from pyvc.values import SObj, SBytes, SymFn
from pyvc.extract import real_module

im = real_module("pdfminer.image")

c = contract("pdfminer.image:align32", props=["C18"])
c.param("x", T.Int(0, 10 ** 6)).returns(T.Int())
c.ens("least-multiple-of-4-not-below-x", lambda x, result: And(eq(mod(result, 4), 0), le(x, result), lt(result, x + 4)))


def _linesize(fn):
    out = []
    for n in fn.body:
        if isinstance(n, ast.Assign) and isinstance(n.targets[0], ast.Attribute) and n.targets[0].attr in ("linesize", "datasize"):
            out.append(n)
    return out or None


c = fragment("pdfminer.image:BMPWriter.__init__", "row-stride", _linesize, props=["C18"], mode="stmts")
c.param("self", T.Obj("pdfminer.image:BMPWriter", width=T.Int(1, 5000), height=T.Int(1, 5000), bits=T.OneOf(1, 8, 24), linesize=T.Int(0), datasize=T.Int(0)))
c.mod("self.linesize").mod("self.datasize")
c.ens("rows-padded-to-4-bytes-bits-rounded-up", lambda self: And(
    eq(mod(self.linesize, 4), 0), le(self.width * self.bits, self.linesize * 8), lt(self.linesize * 8, self.width * self.bits + 32 + 7),
    le(floordiv(self.width * self.bits + 7, 8), self.linesize), lt(self.linesize, floordiv(self.width * self.bits + 7, 8) + 4),
    eq(self.datasize, self.linesize * self.height)))


class _Fp(T.Sort):
    def fresh(self, ctx, name):
        calls = []
        return SObj(None, {"seek": SymFn(lambda I, p: calls.append(("seek", p)), "seek"), "write": SymFn(lambda I, d: calls.append(("write", d)), "write"), "_calls": calls}, name)
    def sample(self, rng):
        return None
    def from_model(self, ev, v):
        return None


c = contract("pdfminer.image:BMPWriter.write_line", props=["C18"])
c.param("self", T.Obj("pdfminer.image:BMPWriter", fp=_Fp(), pos0=T.Int(54, 2000), pos1=T.Int(0), linesize=T.Int(4, 4000), height=T.Int(1, 5000)))
c.param("y", T.Int(0, 4999)).param("data", T.Bytes(maxlen=4000))
c.skip_cross = True
c.req("data-area", lambda self, y, data: And(eq(self.pos1, self.pos0 + self.linesize * self.height), lt(y, self.height), le(data.n, self.linesize)))
c.mod("self.fp._calls")
c.ens("row-y-is-stored-bottom-up-inside-the-data-area", lambda self, y, data: And(
    len(self.fp._calls) == 2, self.fp._calls[0][0] == "seek", self.fp._calls[1][0] == "write",
    # the stored row is exactly linesize bytes (file as long as its header declares) and starts with the samples
    eq(self.fp._calls[1][1].n, self.linesize),
    ForAllInt(0, data.n, lambda t: eq(self.fp._calls[1][1].at(t), data.at(t))),
    eq(self.fp._calls[0][1], self.pos0 + (self.height - 1 - y) * self.linesize),
    le(self.pos0, self.fp._calls[0][1]), le(self.fp._calls[0][1] + self.linesize, self.pos1)))


# rows handed to the writer: row y = data[y*bpl, (y+1)*bpl)  (1- and 8-bit images; the 24-bit channel swap uses bytearray
# slice assignment, outside the subset: exhaustive/bounded below)
def _bmp_loop_body(fn):
    for n in ast.walk(fn):
        if isinstance(n, ast.For) and "range(height)" in ast.unparse(n.iter):
            return n.body
    return None


c = fragment("pdfminer.image:ImageWriter._save_bmp", "row-slicing", _bmp_loop_body, props=["C18"], mode="stmts")
c.param("data", T.Bytes(maxlen=40)).param("i", T.Int(0, 100)).param("y", T.Int(0, 100)).param("bytes_per_line", T.Int(1, 50)).param("bits", T.OneOf(1, 8))
c.param("bmp", T.Obj("pdfminer.image:BMPWriter"))
c.skip_cross = True
_wl = stub("pdfminer.image:BMPWriter.write_line", ["self", "y", "data"])
c.stubs = {"pdfminer.image:BMPWriter.write_line": _wl}
c.ens("row-y-is-the-next-bytes-per-line-bytes", lambda data, old, i, y, bytes_per_line, trace: And(
    len(trace) == 1, trace[0][1]["y"] is y or eq(trace[0][1]["y"], y),
    eq(trace[0][1]["data"].n, If(lt(data.n, old.i), 0, If(lt(data.n, old.i + bytes_per_line), data.n - old.i, bytes_per_line))),
    eq(i, old.i + bytes_per_line),
    z3.ForAll([z3.Int("t!c18")], z3.Implies(z3.And(z3.Int("t!c18") >= 0, z3.Int("t!c18") < trace[0][1]["data"].n),
                                             trace[0][1]["data"].at(z3.Int("t!c18")) == data.at(old.i + z3.Int("t!c18"))))))


# -- export_image: format by last filter / bit depth / colour space ---------------------------------------------------------------------
pt = real_module("pdfminer.pdftypes")
pc = real_module("pdfminer.pdfcolor")
LIT = real_module("pdfminer.psparser").LIT


class _Img(T.Sort):
    CASES = [("none", 8, "gray"), ("none", 8, "rgb"), ("none", 1, "gray"), ("flate", 8, "gray"), ("flate", 8, "rgb"), ("flate", 1, "gray"),
             ("ahx+flate", 8, "rgb"), ("dct", 8, "rgb"), ("flate+dct", 8, "gray"), ("jpx", 8, "rgb"), ("jbig2", 1, "gray"), ("flate", 8, "cmyk"),
             ("lzw", 8, "cmyk"), ("flate", 4, "gray"), ("none", 8, "inline-gray"), ("none", 8, "inline-rgb")]
    def fresh(self, ctx, name):
        f, bits, cs = ctx.choose(self.CASES, "image-kind")
        names = {"none": [], "flate": ["FlateDecode"], "ahx+flate": ["ASCIIHexDecode", "FlateDecode"], "dct": ["DCTDecode"], "flate+dct": ["FlateDecode", "DCTDecode"],
                 "jpx": ["JPXDecode"], "jbig2": ["JBIG2Decode"], "lzw": ["LZWDecode"]}[f]
        filters = [(LIT(n_), None) for n_ in names]
        csv = {"gray": [pc.LITERAL_DEVICE_GRAY], "rgb": [pc.LITERAL_DEVICE_RGB], "cmyk": [pc.LITERAL_DEVICE_CMYK],
               "inline-gray": [pc.LITERAL_INLINE_DEVICE_GRAY], "inline-rgb": [pc.LITERAL_INLINE_DEVICE_RGB]}[cs]
        w, h = ctx.fresh_int("w"), ctx.fresh_int("h")
        ctx.assume(z3.And(w >= 1, h >= 1))
        strm = SObj(None, {"get_filters": SymFn(lambda I: filters, "get_filters")}, "stream")
        return SObj(None, {"srcsize": (w, h), "stream": strm, "bits": bits, "colorspace": csv, "_case": (f, bits, cs), "_w": w, "_h": h}, name)
    def sample(self, rng):
        return None
    def from_model(self, ev, v):
        return {"case": list(v.f["_case"])}


c = contract("pdfminer.image:ImageWriter.export_image", props=["C18"])
c.param("self", T.Obj("pdfminer.image:ImageWriter")).param("image", _Img())
c.skip_cross = True
_savers = {}
for _m, _ps in (("_save_jpeg", ["self", "image"]), ("_save_jpeg2000", ["self", "image"]), ("_save_jbig2", ["self", "image"]),
                ("_save_bmp", ["self", "image", "width", "height", "bytes_per_line", "bits"]), ("_save_bytes", ["self", "image"]), ("_save_raw", ["self", "image"])):
    st = stub("pdfminer.image:ImageWriter.%s" % _m, _ps, T.Const("name"))
    _savers["pdfminer.image:ImageWriter.%s" % _m] = st
c.stubs = _savers


def _export_spec(image, trace):
    f, bits, cs = image._case
    w, h = image._w, image._h
    if len(trace) != 1:
        return False
    name, b = trace[0]
    name = name.split(".")[-1]
    if f.endswith("dct"):
        return name == "_save_jpeg"          # DCT data is written through byte for byte
    if f == "jpx":
        return name == "_save_jpeg2000"
    if f == "jbig2":
        return name == "_save_jbig2"
    if bits == 1:
        return name == "_save_bmp" and And(eq(b["width"], w), eq(b["height"], h), eq(b["bytes_per_line"], floordiv(w + 7, 8)), b["bits"] == 1)
    if bits == 8 and cs in ("rgb", "inline-rgb"):
        return name == "_save_bmp" and And(eq(b["width"], w), eq(b["height"], h), eq(b["bytes_per_line"], w * 3), b["bits"] == 24)
    if bits == 8 and cs in ("gray", "inline-gray"):
        return name == "_save_bmp" and And(eq(b["width"], w), eq(b["height"], h), eq(b["bytes_per_line"], w), b["bits"] == 8)
    return name in ("_save_bytes", "_save_raw")


c.ens("writer-geometry-by-bits-and-colour-space", lambda image, trace: _export_spec(image, trace))


# -- _save_jpeg (gray / RGB): the file receives exactly the decoded stream data - what is left once every filter before DCTDecode has been undone and the
#    document's encryption removed - never the stored bytes -------------------------------------------------------------------------------------------------
class _JpegImg(T.Sort):
    def fresh(self, ctx, name):
        decoded, stored = T.Bytes().fresh(ctx, "decoded"), T.Bytes().fresh(ctx, "stored")
        cs = ctx.choose([[pc.LITERAL_DEVICE_GRAY], [pc.LITERAL_DEVICE_RGB], [pc.LITERAL_INLINE_DEVICE_RGB], []], "colorspace")
        strm = SObj(None, {"get_data": SymFn(lambda I: decoded, "get_data"), "get_rawdata": SymFn(lambda I: stored, "get_rawdata"), "rawdata": stored, "data": None}, "stream")
        return SObj(None, {"stream": strm, "colorspace": cs, "_decoded": decoded, "_stored": stored}, name)
    def sample(self, rng):
        return None
    def from_model(self, ev, v):
        return {"decoded": T.Bytes().from_model(ev, v.f["_decoded"]).hex(), "stored": T.Bytes().from_model(ev, v.f["_stored"]).hex()}


def _same_bytes(a, b):
    if not (isinstance(a, SBytes) and isinstance(b, SBytes)):
        return False
    return And(eq(a.n, b.n), ForAllInt(0, b.n, lambda t: eq(a.at(t), b.at(t)), "t"))


for _m, _ext in (("_save_jpeg", ".jpg"),):
    c = contract("pdfminer.image:ImageWriter.%s%s" % (_m, "#not-cmyk" if _m == "_save_jpeg" else ""), props=["C18"])
    c.modname, c.qualname = "pdfminer.image", "ImageWriter.%s" % _m
    c.param("self", T.Obj("pdfminer.image:ImageWriter")).param("image", _JpegImg())
    c.skip_cross = True
    _un = stub("pdfminer.image:ImageWriter._create_unique_image_name", ["self", "image", "ext"])
    _un.result_fn = ("name-and-path", lambda ext: ("<name>", "<path>"))
    c.stubs = {"pdfminer.image:ImageWriter._create_unique_image_name": _un}
    if _m == "_save_jpeg":
        c.ens("decoded-data-byte-for-byte-into-the-uniquely-named-file", (lambda ext: lambda image, result, trace: And(
            result == "<name>", len(trace) == 2, trace[0][0].endswith("_create_unique_image_name"), trace[0][1]["ext"] == ext,
            trace[1][0] == "open.write", trace[1][1]["path"] == "<path>", trace[1][1]["mode"] == "wb", _same_bytes(trace[1][1]["data"], image._decoded)))(_ext))


@bounded("exported-bitmaps-read-back", props=["C18"],
         bound="quick: 90 generated documents with 1..3 image XObjects (plus, in 30 %, two forms that each hold an image under the same resource name; gray 8-bit, RGB 8-bit, 1-bit; width 1..40 incl. widths with width%32 in 1..7; height 1..4; unfiltered, Flate, ASCIIHex+Flate; or DCT data alone / behind Flate / ASCIIHex / ASCII85+Flate, compared byte for byte), exported with output_dir and read back with an independent BMP reader; distinct images get distinct files, existing files are kept; thorough: 2000")
def _(tier, seed):
    import io, os, random, shutil, tempfile, zlib
    from specs.pdfgen import build, Name, Ref, Stream
    from specs.bmp import read_bmp
    rng = random.Random(seed + 18)
    n = 90 if tier == "quick" else 2000
    hl = real_module("pdfminer.high_level")
    failures, evals, distinct = [], 0, set()
    root = tempfile.mkdtemp(prefix="c18-")
    try:
        for it in range(n):
            outdir = os.path.join(root, "o%d" % it)
            os.makedirs(outdir)
            open(os.path.join(outdir, "Im0.bmp"), "wb").write(b"pre-existing")
            objs = {1: {"Type": Name("Catalog"), "Pages": Ref(2)}, 2: {"Type": Name("Pages"), "Kids": [Ref(3)], "Count": 1}}
            xobjs, expect, expect_jpg = {}, [], []
            for k in range(rng.randint(1, 3)):
                kind = rng.choice(["gray", "rgb", "bw", "jpeg"])
                w = rng.choice([1, 2, 3, 7, 8, 9, 31, 33, 35, 38, 40]); h = rng.randint(1, 4)
                if kind == "jpeg":
                    # DCT data is written through without being parsed: any byte string between the JPEG markers will do; the chain before DCTDecode must be undone
                    jpg = b"\xff\xd8" + bytes(rng.randrange(256) for _ in range(rng.randint(0, 60))) + b"\xff\xd9"
                    chain = rng.choice([[], ["FlateDecode"], ["ASCIIHexDecode"], ["ASCII85Decode", "FlateDecode"]])
                    data = jpg
                    for f_ in reversed(chain):
                        if f_ == "FlateDecode":
                            data = zlib.compress(data)
                        elif f_ == "ASCIIHexDecode":
                            data = data.hex().encode() + b">"
                        else:
                            import base64
                            data = base64.a85encode(data) + b"~>"
                    d = {"Type": Name("XObject"), "Subtype": Name("Image"), "Width": w, "Height": h, "BitsPerComponent": 8, "ColorSpace": Name(rng.choice(["DeviceRGB", "DeviceGray"])),
                         "Filter": [Name(f_) for f_ in chain] + [Name("DCTDecode")]}
                    objs[10 + k] = Stream(d, data)
                    xobjs["Im%d" % k] = Ref(10 + k)
                    expect_jpg.append(jpg)
                    continue
                if kind == "gray":
                    raw = bytes(rng.randrange(256) for _ in range(w * h)); d = {"BitsPerComponent": 8, "ColorSpace": Name("DeviceGray")}
                    pix = [[(raw[y * w + x],) * 3 for x in range(w)] for y in range(h)]
                elif kind == "rgb":
                    raw = bytes(rng.randrange(256) for _ in range(w * h * 3)); d = {"BitsPerComponent": 8, "ColorSpace": Name("DeviceRGB")}
                    pix = [[tuple(raw[(y * w + x) * 3:(y * w + x) * 3 + 3]) for x in range(w)] for y in range(h)]
                else:
                    bpl = (w + 7) // 8
                    raw = bytes(rng.randrange(256) for _ in range(bpl * h)); d = {"BitsPerComponent": 1, "ColorSpace": Name("DeviceGray")}
                    pix = [[(255, 255, 255) if (raw[y * bpl + x // 8] >> (7 - x % 8)) & 1 else (0, 0, 0) for x in range(w)] for y in range(h)]
                enc = rng.choice(["none", "flate", "ahx+flate"])
                data = raw
                if enc != "none":
                    data = zlib.compress(raw); d["Filter"] = Name("FlateDecode")
                if enc == "ahx+flate":
                    data = data.hex().encode() + b">"; d["Filter"] = [Name("ASCIIHexDecode"), Name("FlateDecode")]
                d.update({"Type": Name("XObject"), "Subtype": Name("Image"), "Width": w, "Height": h})
                objs[10 + k] = Stream(d, data)
                xobjs["Im%d" % k] = Ref(10 + k)
                expect.append((w, h, pix))
            content = " ".join("q 10 0 0 10 %d 0 cm /Im%d Do Q" % (20 * k, k) for k in range(len(xobjs)))
            if rng.random() < 0.3:
                # two form XObjects, each with an image of its own under the same resource name /Im0 (names are local to a resource dictionary)
                for fk in range(2):
                    fraw = bytes(rng.randrange(256) for _ in range(4))
                    objs[30 + fk] = Stream({"Type": Name("XObject"), "Subtype": Name("Image"), "Width": 2, "Height": 2, "BitsPerComponent": 8, "ColorSpace": Name("DeviceGray")}, fraw)
                    objs[40 + fk] = Stream({"Type": Name("XObject"), "Subtype": Name("Form"), "BBox": [0, 0, 50, 50], "Resources": {"XObject": {"Im0": Ref(30 + fk)}}},
                                           b"q 10 0 0 10 0 0 cm /Im0 Do Q")
                    xobjs["Fm%d" % fk] = Ref(40 + fk)
                    content += " q 1 0 0 1 %d 100 cm /Fm%d Do Q" % (60 * fk, fk)
                    expect.append((2, 2, [[(fraw[y * 2 + x],) * 3 for x in range(2)] for y in range(2)]))
            objs[3] = {"Type": Name("Page"), "Parent": Ref(2), "MediaBox": [0, 0, 200, 200], "Contents": Ref(4), "Resources": {"XObject": xobjs}}
            objs[4] = Stream({}, content.encode())
            evals += 1
            distinct.add(tuple((w, h) for w, h, _p in expect) + tuple(len(j) for j in expect_jpg))
            try:
                hl.extract_text_to_fp(io.BytesIO(build(objs, 1)), io.StringIO(), output_dir=outdir)
                files = sorted(f for f in os.listdir(outdir) if f != "Im0.bmp")
                got, got_jpg = [], []
                for f in files:
                    if f.endswith(".jpg"):
                        got_jpg.append(open(os.path.join(outdir, f), "rb").read())
                    else:
                        got.append(read_bmp(open(os.path.join(outdir, f), "rb").read()))
                kept = open(os.path.join(outdir, "Im0.bmp"), "rb").read() == b"pre-existing"
                ok = kept and len(got) == len(expect) and sorted(map(repr, got)) == sorted(repr((w, h, p)) for w, h, p in expect) and sorted(got_jpg) == sorted(expect_jpg)
                detail = dict(files=files, kept=kept, got=repr(got)[:300], want=repr(expect)[:300], jpeg_files=[g.hex()[:80] for g in sorted(got_jpg)], jpeg_stored=[g.hex()[:80] for g in sorted(expect_jpg)])
            except Exception as e:  # noqa: BLE001
                ok, detail = False, "%s: %s" % (type(e).__name__, e)
            if not ok:
                failures.append(dict(detail=str(detail)[:700]))
                if len(failures) >= 3:
                    break
            shutil.rmtree(outdir, ignore_errors=True)
    finally:
        shutil.rmtree(root, ignore_errors=True)
    return dict(evaluations=evals, distinct=len(distinct), failures=failures)


@bounded("inline-image-data-all-short-strings", props=["C18"],
         bound="quick: every data string of length <= 4 over {E, I, space, LF, x, NUL} that does not contain the end marker (white space + EI + white space), at BUFSIZ 4096 and (seeded third) 1..5, followed by an operator that must still execute; plus 300 random longer strings incl. lengths around 4096; thorough: length <= 5, all buffer sizes 1..8")
def _(tier, seed):
    import io, itertools, random
    from specs.pdfgen import one_page_doc
    rng = random.Random(seed + 181)
    hl = real_module("pdfminer.high_level"); layout = real_module("pdfminer.layout"); PS = real_module("pdfminer.psparser")
    alpha = [b"E", b"I", b" ", b"\n", b"x", b"\x00"]
    Lmax = 4 if tier == "quick" else 5
    sizes = [1, 2, 3, 5] if tier == "quick" else list(range(1, 9))
    saved = PS.PSBaseParser.BUFSIZ
    failures, evals, distinct = [], 0, 0

    def run(data, bs, sep=b" ", after_id=b" "):
        PS.PSBaseParser.BUFSIZ = bs
        c = b"BT /F1 12 Tf (A) Tj ET BI /W 1 /H 1 /BPC 8 /CS /G ID" + after_id + data + sep + b"EI BT /F1 12 Tf (B) Tj ET"
        out = []
        def walk(o):
            if isinstance(o, layout.LTChar):
                out.append(o.get_text())
            elif isinstance(o, layout.LTImage):
                out.append(o.stream.get_data())
            elif hasattr(o, "__iter__"):
                for x in o:
                    walk(x)
        for p in hl.extract_pages(io.BytesIO(one_page_doc(c))):
            walk(p)
        return out
    try:
        def check(data, bss):
            nonlocal evals
            for bs in bss:
                # the separator before EI: a blank stays in the captured data, one end of line (LF, CR, CR LF) is syntax
                for sep in (b" ", b"\n", b"\r", b"\r\n"):
                  # the single white-space byte after ID (ISO 8.9.7): blank, LF, CR or TAB - the data starts right behind it, whatever its first byte is
                  for after_id in ((b" ", b"\n", b"\r", b"\t") if (bs == 4096 and sep == b"\n") else (b" ",)):
                    evals += 1
                    try:
                        got = run(data, bs, sep, after_id)
                    except Exception as e:  # noqa: BLE001
                        got = "%s: %s" % (type(e).__name__, e)
                    want = data + (b" " if sep == b" " else b"")
                    ok = isinstance(got, list) and [g for g in got if isinstance(g, str)] == ["A", "B"] and [g for g in got if isinstance(g, bytes)] == [want]
                    if not ok:
                        failures.append(dict(data=data.hex(), separator=sep.hex(), after_ID=after_id.hex(), bufsiz=bs, got=repr(got)[:200], want=repr(want)[:80]))
                        return
        for n_ in range(0, Lmax + 1):
            for tup in itertools.product(alpha, repeat=n_):
                data = b"".join(tup)
                if b"EI" in data or data.endswith(b"\r"):
                    continue        # (data ending in CR followed by an LF separator reads as one CR LF end of line: ambiguous by construction)
                distinct += 1
                check(data, [4096] + (sizes if rng.random() < 0.34 else []))
                if len(failures) >= 3:
                    raise StopIteration
        for _ in range(300 if tier == "quick" else 5000):
            ln_ = rng.choice([rng.randint(5, 60), 4090 + rng.randint(0, 12), 8185 + rng.randint(0, 12)])
            data = bytes(rng.choice(b"EIx \n\x00~>ab") for _k in range(ln_)).replace(b"EI", b"Ex").rstrip(b"\r")
            distinct += 1
            check(data, [4096, rng.choice(sizes)] if ln_ < 100 else [4096])
            if len(failures) >= 3:
                break
    except StopIteration:
        pass
    finally:
        PS.PSBaseParser.BUFSIZ = saved
    return dict(evaluations=evals, distinct=distinct, failures=failures[:3])


# -- get_inline_data: the data is everything up to the first  E I <white space>, whatever the buffer cuts --------------------------------------
# The content bytes are an uninterpreted function D over absolute positions; fillbuf (stubbed: assumption A-FILLBUF, its two
# implementations are exercised in the bounded checks) delivers the next non-empty window of D at a position of its choosing.
pi = real_module("pdfminer.pdfinterp")
PSEOF = real_module("pdfminer.psparser").PSEOF
_D = z3.Function("D!c18", z3.IntSort(), z3.IntSort())
_FILE = SBytes(z3.Int("N!c18"), lambda k: _D(to_z3_(k)), (0, 256), "bytes")
WS = lambda c: Or(eq(c, 32), eq(c, 9), eq(c, 10), eq(c, 11), eq(c, 12), eq(c, 13))       # bytes.isspace
def to_z3_(x):
    from pyvc.logic import to_z3
    return to_z3(x)


def _window(ctx, base, n):
    w = SBytes(n, lambda k: _D(to_z3_(base) + to_z3_(k)), (0, 256), "bytes")
    w.root, w.off, w.base = _FILE, base, base
    return w


class _Window(T.Sort):
    def fresh(self, ctx, name):
        base, n = ctx.fresh_int(name + "_base"), ctx.fresh_int(name + "_n")
        ctx.assume(z3.And(n >= 0, base >= 0))
        return _window(ctx, base, n)
    def sample(self, rng):
        return None
    def from_model(self, ev, v):
        n = max(0, min(64, int(ev(v.n))))
        return dict(base=int(ev(v.base)), bytes=bytes(int(ev(v.at(k))) % 256 for k in range(n)).hex())


def _seek_effect(I, bound):
    s = bound["self"]
    for f, v in (("bufpos", bound["pos"]), ("buf", _window(I.ctx, bound["pos"], 0)), ("charpos", 0), ("_next", bound["pos"])):
        I.note_write(s, f); s.f[f] = v


def _fill_effect(I, bound):
    s = bound["self"]
    if I.ctx.branch(lt(s.f["charpos"], s.f["buf"].n)):
        return
    if I.ctx.choose([True, False], "more-data?"):
        n = I.ctx.fresh_int("chunk")
        I.ctx.assume(n >= 1)
        base = s.f["_next"]
        for f, v in (("bufpos", base), ("buf", _window(I.ctx, base, n)), ("charpos", 0), ("_next", base + n)):
            I.note_write(s, f); s.f[f] = v
        return
    from pyvc.symexec import SymRaise
    raise SymRaise(PSEOF, "Unexpected EOF")


_sk = stub("pdfminer.pdfinterp:PDFContentParser.seek", ["self", "pos"]); _sk.effect = _seek_effect; _sk.traced = False
_fb = stub("pdfminer.pdfinterp:PDFContentParser.fillbuf", ["self"]); _fb.effect = _fill_effect; _fb.traced = False
P = lambda self: self.bufpos + self.charpos


def _inline_contract(variant, target):
    t0, t1 = target[0], target[1]
    mark = lambda e: And(eq(_D(to_z3_(e)), t0), eq(_D(to_z3_(e) + 1), t1), WS(_D(to_z3_(e) + 2)))
    c = contract("pdfminer.pdfinterp:PDFContentParser.get_inline_data" + variant, props=["C18"])
    c.param("self", T.Obj("pdfminer.pdfinterp:PDFContentParser", buf=_Window(), charpos=T.Int(0), bufpos=T.Int(0), _next=T.Int(0)))
    c.param("pos", T.Int(0)).param("target", T.Const(target))
    c.skip_cross = True
    c.stubs = {"pdfminer.pdfinterp:PDFContentParser.seek": _sk, "pdfminer.pdfinterp:PDFContentParser.fillbuf": _fb}
    for f in ("buf", "charpos", "bufpos", "_next"):
        c.mod("self." + f)
    c.may_raise(PSEOF)

    def inv(v):
        from pyvc.summaries import as_sbytes
        s, i, data, pos = v.self, v.i, as_sbytes(v.data), v.pos
        p = P(s)
        return And(
            le(0, i), le(i, 3), le(0, s.charpos), le(s.charpos, s.buf.n), eq(s.buf.base, s.bufpos), eq(s._next, s.bufpos + s.buf.n),
            le(pos, p), eq(data.n, p - pos), ForAllInt(0, data.n, lambda t: eq(data.at(t), _D(to_z3_(pos) + to_z3_(t))), "t"),
            # the automaton state says exactly which prefix of the marker ends at the cursor
            Iff(eq(i, 1), And(le(pos + 1, p), eq(_D(to_z3_(p) - 1), t0))),
            Iff(eq(i, 2), And(le(pos + 2, p), eq(_D(to_z3_(p) - 2), t0), eq(_D(to_z3_(p) - 1), t1))),
            Iff(eq(i, 3), And(le(pos + 3, p), mark(p - 3))),
            # and no complete marker ends before the cursor
            ForAllInt(pos, p - 3, lambda e: Not(mark(e)), "e", pat=lambda e: _D(e)))

    def post(pos, data, p):
        m = p - 3            # the marker <t0 t1 white-space> ends at the cursor and is the first one at or after pos
        eol = lambda k: Or(eq(_D(to_z3_(k)), 10), eq(_D(to_z3_(k)), 13))
        # one trailing end of line (CR, LF or CR LF) before the marker belongs to the syntax, not to the data
        strip = If(And(le(pos + 2, m), eq(_D(to_z3_(m) - 2), 13), eq(_D(to_z3_(m) - 1), 10)), 2, If(And(le(pos + 1, m), eol(m - 1)), 1, 0))
        return And(le(pos, m), mark(m), ForAllInt(pos, m, lambda e: Not(mark(e)), "e", pat=lambda e: _D(e)),
                   eq(data.n, m - pos - strip), ForAllInt(0, data.n, lambda t: eq(data.at(t), _D(to_z3_(pos) + to_z3_(t))), "t"))

    c.loop(0, inv=inv, types={"data": _Window(), "self.buf": _Window()}, modifies=("self.buf", "self.bufpos", "self.charpos", "self._next"))
    c.returns(T.Opaque("pair"))
    c.ens("data-is-everything-before-the-first-end-marker", lambda self, pos, result: And(eq(result[0], pos), lambda: post(pos, result[1], P(self))))
    return c


_inline_contract("", b"EI")
_inline_contract("#ascii85", b"~>")


# -- A-FILLBUF, base-parser half: PSBaseParser.fillbuf keeps the window while bytes are left in it, else installs the next non-empty
#    window at the file position, or raises PSEOF at the end (PDFContentParser.fillbuf adds the hop to the next content stream: bounded only) -----
PSm = real_module("pdfminer.psparser")


class _FpAt(T.Sort):
    """a file positioned at `pos` whose read(n) returns the next min(n, left) bytes of the uninterpreted content"""
    def fresh(self, ctx, name):
        pos, left = ctx.fresh_int(name + ".pos"), ctx.fresh_int(name + ".left")
        ctx.assume(z3.And(pos >= 0, left >= 0))
        o = SObj(None, {"_pos": pos, "_left": left}, name)

        def tell(I, o=o):
            return o.f["_pos"]

        def read(I, n, o=o):
            take = If(lt(o.f["_left"], n), o.f["_left"], n)
            w = _window(I.ctx, o.f["_pos"], take)
            o.f["_pos"], o.f["_left"] = o.f["_pos"] + take, o.f["_left"] - take
            return w
        o.f["tell"], o.f["read"] = SymFn(tell, "tell"), SymFn(read, "read")
        return o
    def sample(self, rng):
        return None
    def from_model(self, ev, v):
        return dict(pos=int(ev(v.f["_pos"])), left=int(ev(v.f["_left"])))


c = contract("pdfminer.psparser:PSBaseParser.fillbuf", props=["C18", "C14"])
c.param("self", T.Obj("pdfminer.psparser:PSBaseParser", buf=_Window(), charpos=T.Int(0), bufpos=T.Int(0), fp=_FpAt(), BUFSIZ=T.Int(1, 65536)))
c.skip_cross = True
c.inline = True
c.req("cursor-inside-the-window", lambda self: le(self.charpos, self.buf.n))
for f in ("buf", "charpos", "bufpos", "fp._pos", "fp._left"):
    c.mod("self." + f)
c.may_raise(PSm.PSEOF, lambda self, old: And(eq(old.self.charpos, old.self.buf.n), eq(old.self.fp._left, 0)))
c.ens("window-kept-or-replaced-by-the-next-non-empty-one", lambda self, old: If(
    lt(old.self.charpos, old.self.buf.n),
    And(eq(self.charpos, old.self.charpos), eq(self.bufpos, old.self.bufpos), eq(self.buf.n, old.self.buf.n), eq(self.buf.base, old.self.buf.base), eq(self.fp._pos, old.self.fp._pos)),
    And(eq(self.charpos, 0), eq(self.bufpos, old.self.fp._pos), eq(self.buf.base, old.self.fp._pos), lt(0, self.buf.n), le(self.buf.n, self.BUFSIZ),
        eq(self.buf.n, If(lt(old.self.fp._left, self.BUFSIZ), old.self.fp._left, self.BUFSIZ)), eq(self.fp._pos, old.self.fp._pos + self.buf.n))))


# -- the ID keyword: the data starts exactly one byte after 'ID' (ISO 8.9.7: a single white-space character), what get_inline_data returns is the
#    image's data unchanged, and an EI keyword is pushed behind the image so that do_EI runs -------------------------------------------------------
class _IDParser(T.Sort):
    def fresh(self, ctx, name):
        LIT_ = real_module("pdfminer.psparser").LIT
        o = SObj(pi.PDFContentParser, {"_calls": [], "_pushed": []}, name)
        filt = ctx.choose(["none", "A85", "AHx"], "inline-filter")
        objs = [LIT_("W"), 2, LIT_("H"), 1] + ([] if filt == "none" else [LIT_("F"), LIT_("ASCII85Decode" if filt == "A85" else "ASCIIHexDecode")])
        o.f["_filter"] = filt
        o.f["_data"] = SBytes(ctx.fresh_int("n"), lambda k: _D(to_z3_(k)), (0, 256), "bytes")
        o.f["end_type"] = SymFn(lambda I, t, o=o: (o.f["_calls"].append(("end_type", t)), (0, list(objs)))[1], "end_type")

        def gid(I, pos, target=b"EI", o=o):
            o.f["_calls"].append(("get_inline_data", pos, target))
            return (pos, o.f["_data"])
        o.f["get_inline_data"] = SymFn(gid, "get_inline_data")
        o.f["push"] = SymFn(lambda I, *xs, o=o: o.f["_pushed"].extend(xs), "push")
        return o
    def sample(self, rng):
        return None
    def from_model(self, ev, v):
        return v.f["_filter"]


c = contract("pdfminer.pdfinterp:PDFContentParser.do_keyword#ID", props=["C18"])
c.modname, c.qualname = "pdfminer.pdfinterp", "PDFContentParser.do_keyword"
c.param("self", _IDParser()).param("pos", T.Int(0)).param("token", T.Const("ID"))
c.skip_cross = True
c.wire = lambda bound, ghosts: bound.__setitem__("token", pi.PDFContentParser.KEYWORD_ID)
c.mod("self._calls").mod("self._pushed")
_pstream = stub("pdfminer.pdftypes:PDFStream.__init__", ["self", "attrs", "rawdata", "decipher"])
_pstream.defaults["decipher"] = None
c.stubs = {"pdfminer.pdftypes:PDFStream.__init__": _pstream}


def _id_spec(self, pos, trace):
    calls = self._calls
    a85 = self._filter == "A85"
    if [c_[0] for c_ in calls] != ["end_type", "get_inline_data"]:
        return False
    g = calls[1]
    made = [b for n, b in trace if n.endswith("PDFStream.__init__")]
    if len(made) != 1:
        return False
    raw = made[0]["rawdata"]
    from pyvc.summaries import as_sbytes, sbytes_eq, sbytes_concat
    want = self._data if not a85 else sbytes_concat(as_sbytes(self._data), as_sbytes(b"~>"))
    pushed = self._pushed
    ok_push = (len(pushed) == (1 if a85 else 2) and pushed[0][1].f is not None and (a85 or pushed[1][1] is pi.PDFContentParser.KEYWORD_EI))
    return And(eq(g[1], pos + 3), g[2] == (b"~>" if a85 else b"EI"), sbytes_eq(as_sbytes(raw), as_sbytes(want)), ok_push,
               sorted(made[0]["attrs"]) == (["F", "H", "W"] if self._filter != "none" else ["H", "W"]))


c.ens("data-starts-one-byte-after-ID-and-is-passed-on-unchanged", _id_spec)


# -- the content parser reads a page's streams one after the other (C05: an operator sequence may be split over several streams; C18: inline data is taken
#    from the same windows): fillfp opens the next stream exactly when none is open; fillbuf skips streams that have nothing (left) and ends with PSEOF -----------
class _TwoStreams(T.Sort):
    def fresh(self, ctx, name):
        strms = [SObj(None, {"get_data": SymFn((lambda tag: lambda I: tag)("data-of-stream-%d" % k), "get_data"), "_tag": "data-of-stream-%d" % k}, "stream%d" % k) for k in range(2)]
        return strms
    def sample(self, rng):
        return None
    def from_model(self, ev, v):
        return "two streams"


_sv_id = stub("pdfminer.pdftypes:stream_value", ["x"]); _sv_id.result_fn = ("the-stream-itself", lambda x: x)
_sv_id.note = "stream_value is the identity on a stream (its own contract is in C13)"
for _fpstate in ("open", "none"):
    c = contract("pdfminer.pdfinterp:PDFContentParser.fillfp#%s" % _fpstate, props=["C05", "C18"])
    c.param("self", T.Obj("pdfminer.pdfinterp:PDFContentParser", streams=_TwoStreams(), istream=T.OneOf(0, 1, 2),
                          fp=T.Const(None) if _fpstate == "none" else T.Obj(None, _open=T.Const(True))))
    c.skip_cross = True
    c.stubs = {"pdfminer.pdftypes:stream_value": _sv_id}
    if _fpstate == "open":
        # frame: nothing is modified (fp and istream included)
        c.ens("an-open-stream-is-kept-no-stream-is-looked-at", lambda self, trace: len(trace) == 0 and self.fp is not None)
    else:
        c.mod("self.fp").mod("self.istream")
        c.may_raise(PSm.PSEOF, lambda old: old.self.istream >= 2)
        c.ens("the-next-stream-in-order-is-opened-on-its-decoded-data", lambda self, old: (
            old.self.istream < 2 and self.istream == old.self.istream + 1 and self.fp._wrapped == "data-of-stream-%d" % old.self.istream))


class _CPFiles(T.Sort):
    """content parser with an optional open file and two more streams waiting, each with a symbolic number of bytes (possibly none)"""
    def fresh(self, ctx, name):
        files = [_FpAt().fresh(ctx, "file%d" % k) for k in range(3)]
        for f in files[1:]:
            ctx.assume(f.f["_pos"] == 0)
        has_open = ctx.choose([True, False], "a-stream-is-open")
        o = SObj(pi.PDFContentParser, {"fp": files[0] if has_open else None, "_waiting": files[1:] if has_open else files[1:], "_opened": [], "_files": files, "_has_open": has_open,
                                       "buf": _Window().fresh(ctx, "buf"), "charpos": ctx.fresh_int("charpos"), "bufpos": ctx.fresh_int("bufpos"),
                                       "BUFSIZ": ctx.fresh_int("BUFSIZ")}, name)
        ctx.assume(z3.And(o.f["charpos"] >= 0, o.f["charpos"] <= o.f["buf"].n, o.f["BUFSIZ"] >= 1))
        return o
    def sample(self, rng):
        return None
    def from_model(self, ev, v):
        return dict(open=v.f["_has_open"], left=[int(str(ev(f.f["_left"]))) for f in v.f["_files"]])


def _fillfp_effect(I, bound):
    from pyvc.symexec import SymRaise
    s = bound["self"]
    if s.f["fp"] is None:
        if not s.f["_waiting"]:
            raise SymRaise(PSm.PSEOF, "Unexpected EOF, file truncated?")
        I.note_write(s, "fp")
        s.f["fp"] = s.f["_waiting"].pop(0)
        s.f["_opened"].append(s.f["fp"])


_ffp = stub("pdfminer.pdfinterp:PDFContentParser.fillfp", ["self"]); _ffp.effect = _fillfp_effect
_ffp.note = "fillfp as contracted above: keeps an open file, else opens the next waiting stream, else PSEOF"
c = contract("pdfminer.pdfinterp:PDFContentParser.fillbuf", props=["C05", "C18"])
c.param("self", _CPFiles())
c.skip_cross = True
c.inline = True
c.stubs = {"pdfminer.pdfinterp:PDFContentParser.fillfp": _ffp}
for f in ("buf", "charpos", "bufpos", "fp", "_waiting", "_opened", "_files[*]"):
    c.mod("self." + f)


def _cp_candidates(self):
    """files in reading order from the entry state: the open one (if any), then the waiting ones"""
    return [f for f in self._files if (self._has_open or f is not self._files[0])]


def _cp_spec(self, old):
    o = old.self
    cands = _cp_candidates(o)
    keep = And(eq(self.charpos, o.charpos), eq(self.bufpos, o.bufpos), eq(self.buf.n, o.buf.n), eq(self.buf.base, o.buf.base))
    # first candidate with bytes left gives the window
    def from_(k):
        if k == len(cands):
            return False              # no such file: PSEOF must have been raised instead
        f = cands[k]
        take = If(lt(f._left, o.BUFSIZ), f._left, o.BUFSIZ)
        here = And(eq(self.charpos, 0), eq(self.bufpos, f._pos), eq(self.buf.base, f._pos), eq(self.buf.n, take))
        return If(lt(0, f._left), here, from_(k + 1))
    return If(lt(o.charpos, o.buf.n), keep, from_(0))


c.may_raise(PSm.PSEOF, lambda old: And(eq(old.self.charpos, old.self.buf.n), *[eq(f._left, 0) for f in _cp_candidates(old.self)]))
c.ens("window-kept-or-taken-from-the-first-stream-that-has-bytes-left", _cp_spec)


# -- every image item of the page tree reaches the image writer: once each, in document order, whatever their (resource-local) names ---------------------------
class _ImgTree(T.Sort):
    def fresh(self, ctx, name):
        same = ctx.choose([True, False], "same-resource-name-in-both-forms")
        exported = []
        iw = SObj(None, {"export_image": SymFn(lambda I, it: (exported.append(it), "file-name")[1], "export_image"), "_exported": exported}, "imagewriter")
        mk = lambda tag, nm: SObj(lay.LTImage, {"name": nm, "_tag": tag}, tag)
        a, b, c3 = mk("img-a", "Im0"), mk("img-b", "Im0" if same else "Im1"), mk("img-c", "Im0")
        f1 = SObj(lay.LTFigure, {"name": "Fm0", "_objs": [a]}, "fig1")
        f2 = SObj(lay.LTFigure, {"name": "Fm1", "_objs": [b, c3]}, "fig2")
        page = SObj(lay.LTPage, {"pageid": 1, "_objs": [f1, f2]}, "page")
        return SObj(None, {"page": page, "iw": iw, "_same": same}, name)
    def sample(self, rng):
        return None
    def from_model(self, ev, v):
        return {"same_name": v.f["_same"]}


lay = real_module("pdfminer.layout")
_wt18 = stub("pdfminer.converter:TextConverter.write_text", ["self", "text"])
sc = scenario("pdfminer.converter", "text-converter-hands-every-image-to-the-writer", """
def render_images(conv, t):
    conv.imagewriter = t.iw
    conv.receive_layout(t.page)
""", props=["C18", "C11"])
sc.param("conv", T.Obj("pdfminer.converter:TextConverter", showpageno=T.Const(False), imagewriter=T.Const(None))).param("t", _ImgTree())
sc.skip_cross = True
sc.inline_callees = True
sc.stubs = {"pdfminer.converter:TextConverter.write_text": _wt18}
sc.mod("conv.imagewriter").mod("t.*")
sc.ens("each-image-item-exported-once-in-document-order", lambda t: [i.f["_tag"] for i in t.iw._exported] == ["img-a", "img-b", "img-c"])
