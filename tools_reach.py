#!/usr/bin/env python3
"""tools_reach.py: which repository functions do the bounded stand-ins of each property actually execute?
Runs every `bounded` function (quick tier, at most 150 s each) under sys.setprofile and writes reach.json:
{property: [module:qualname, ...]} restricted to functions that are under some contract.  The contract loader uses this file to run, for a property,
also the contracts of functions its own stand-ins pass through (so a change in such a function fails a named obligation of that property's check).
Regenerate after adding contracts or stand-ins:  .venv/bin/python tools_reach.py"""
import sys, os, json, signal, importlib, pkgutil, time
sys.path.insert(0, os.path.dirname(os.path.abspath(__file__)))
from pyvc.extract import ensure_repo_on_path, REPO
ensure_repo_on_path()
import contracts
for m in sorted(pkgutil.iter_modules(contracts.__path__), key=lambda x: x.name):
    importlib.import_module("contracts." + m.name)
from pyvc.contracts import REGISTRY, BOUNDED

root = os.path.realpath(os.path.join(REPO, "pdfminer")) + os.sep
contracted = {}
for k in REGISTRY:
    base = k.split("#")[0]
    if ":scenario." in base:
        continue
    # fragments are keyed by the enclosing function
    contracted.setdefault(base, set()).add(k)
hits = {}


def run(fn, tier, seed):
    seen = set()

    def prof(frame, event, arg):
        if event == "call":
            co = frame.f_code
            fnm = co.co_filename
            if fnm.startswith(root):
                seen.add((fnm, co.co_qualname if hasattr(co, "co_qualname") else co.co_name))

    def on_alarm(*a):
        raise TimeoutError
    signal.signal(signal.SIGALRM, on_alarm)
    signal.alarm(150)
    sys.setprofile(prof)
    try:
        fn(tier, seed)
    except TimeoutError:
        pass
    except BaseException as e:  # noqa: BLE001
        print("   (stand-in ended with %s)" % type(e).__name__)
    finally:
        sys.setprofile(None)
        signal.alarm(0)
    out = set()
    for fnm, qn in seen:
        mod = "pdfminer." + os.path.relpath(fnm, root)[:-3].replace(os.sep, ".")
        out.add("%s:%s" % (mod, qn.replace(".<locals>", "")))
    return out


reach = {}
for name, b in sorted(BOUNDED.items()):
    t0 = time.time()
    got = run(b.fn, "quick", 1)
    for p in b.props:
        reach.setdefault(p, set()).update(got)
    print("%-70s %4d functions %5.1fs" % (name[:70], len(got), time.time() - t0))
out = {p: sorted(f for f in fs if f in contracted) for p, fs in sorted(reach.items())}
json.dump(out, open(os.path.join(os.path.dirname(os.path.abspath(__file__)), "reach.json"), "w"), indent=0, sort_keys=True)
for p, fs in out.items():
    print(p, len(fs))
